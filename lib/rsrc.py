"""Rust source slicing: vx index wrapper, lexer-aware matching, verbatim extraction with logged edits.

Everything emitted for a repo item is the *byte range of the original file*, altered only by
edits that are recorded (rule id, before, after) so that evidence can list exactly what was dropped.
"""
import json
import os
import re

from common import REPO, VX, Undecided, run, read


# ----------------------------------------------------------------------------- lexer helpers

def _skip_string(t, i):
    """t[i] == '"' ; returns index after closing quote."""
    i += 1
    n = len(t)
    while i < n:
        c = t[i]
        if c == "\\":
            i += 2
            continue
        if c == '"':
            return i + 1
        i += 1
    return n


def _skip_raw_string(t, i):
    """t[i] == 'r' and a raw string starts here; returns index after it, or None if not a raw string."""
    j = i + 1
    hashes = 0
    while j < len(t) and t[j] == "#":
        hashes += 1
        j += 1
    if j < len(t) and t[j] == '"':
        end = t.find('"' + "#" * hashes, j + 1)
        if end < 0:
            return len(t)
        return end + 1 + hashes
    return None


def tokens_skip(t, i):
    """If a comment / string / char literal starts at i, return the index after it, else None."""
    c = t[i]
    if c == "/" and i + 1 < len(t):
        if t[i + 1] == "/":
            j = t.find("\n", i)
            return len(t) if j < 0 else j
        if t[i + 1] == "*":
            depth = 1
            j = i + 2
            while j < len(t) and depth:
                if t.startswith("/*", j):
                    depth += 1
                    j += 2
                elif t.startswith("*/", j):
                    depth -= 1
                    j += 2
                else:
                    j += 1
            return j
    if c == '"':
        return _skip_string(t, i)
    if c in "rb" and (i == 0 or not (t[i - 1].isalnum() or t[i - 1] == "_")):
        j = i
        if t.startswith("br", i):
            j = i + 1
        if t[j] == "r":
            r = _skip_raw_string(t, j)
            if r is not None:
                return r
        if c == "b" and i + 1 < len(t) and t[i + 1] == '"':
            return _skip_string(t, i + 1)
        if c == "b" and i + 1 < len(t) and t[i + 1] == "'":
            i += 1
            c = "'"
        else:
            return None
    if c == "'":
        # char literal or lifetime
        if i + 1 < len(t) and t[i + 1] == "\\":
            j = t.find("'", i + 2)
            # handle '\'' : the found quote may be the escaped one
            if j == i + 2:
                j = t.find("'", j + 1)
            return len(t) if j < 0 else j + 1
        if i + 2 < len(t) and t[i + 2] == "'":
            return i + 3
        return None
    return None


_OPEN = {"(": ")", "[": "]", "{": "}"}


def match_close(t, i):
    """t[i] is an opening bracket; return index of the matching close bracket."""
    assert t[i] in _OPEN, (t[i], i)
    stack = [_OPEN[t[i]]]
    j = i + 1
    n = len(t)
    while j < n:
        s = tokens_skip(t, j)
        if s is not None:
            j = s
            continue
        c = t[j]
        if c in _OPEN:
            stack.append(_OPEN[c])
        elif c in ")]}":
            if not stack or stack[-1] != c:
                raise Undecided("lex-mismatch", f"bracket mismatch at {j}")
            stack.pop()
            if not stack:
                return j
        j += 1
    raise Undecided("lex-mismatch", "unclosed bracket")


def code_positions(t, needle):
    """All indices where `needle` occurs in code (not in comments / strings)."""
    res = []
    j = 0
    n = len(t)
    while j < n:
        s = tokens_skip(t, j)
        if s is not None:
            j = s
            continue
        if t.startswith(needle, j):
            res.append(j)
            j += len(needle)
            continue
        j += 1
    return res


def split_top_commas(t):
    """Split macro/fn argument text at top-level commas."""
    parts = []
    depth = 0
    last = 0
    j = 0
    n = len(t)
    while j < n:
        s = tokens_skip(t, j)
        if s is not None:
            j = s
            continue
        c = t[j]
        if c in _OPEN:
            j = match_close(t, j) + 1
            continue
        if c == "," and depth == 0:
            parts.append(t[last:j])
            last = j + 1
        j += 1
    parts.append(t[last:])
    return parts


def macro_calls(t, name):
    """Yield (start, open_idx, close_idx) for each `name!(` / `name![` / `name!{` in code."""
    out = []
    for p in code_positions(t, name + "!"):
        if p > 0 and (t[p - 1].isalnum() or t[p - 1] == "_"):
            continue
        k = p + len(name) + 1
        while k < len(t) and t[k] in " \n\t":
            k += 1
        if k < len(t) and t[k] in _OPEN:
            out.append((p, k, match_close(t, k)))
    return out


# ----------------------------------------------------------------------------- vx index

_index_cache = {}


class Src:
    def __init__(self, rel, root=None):
        self.root = root or REPO
        self.rel = rel
        self.path = os.path.join(self.root, rel)
        if not os.path.exists(self.path):
            raise Undecided("anchor-lost", f"file {rel} does not exist")
        raw = open(self.path, "rb").read()
        self.bytes = raw
        key = (self.path, hash(raw))
        if key not in _index_cache:
            r = run([VX, "index", self.path], timeout=60)
            if r["rc"] != 0:
                raise Undecided("vx-parse", f"{rel}: {r['err'][:400]}")
            _index_cache[key] = json.loads(r["out"])
        self.index = _index_cache[key]

    def items(self, path, kind=None):
        return [i for i in self.index["items"] if i["path"] == path and (kind is None or i["kind"] == kind)]

    def item(self, path, kind=None, nth=None):
        its = self.items(path, kind)
        if not its:
            raise Undecided("anchor-lost", f"{self.rel}: item `{path}` not found")
        if nth is not None:
            if nth >= len(its):
                raise Undecided("anchor-lost", f"{self.rel}: item `{path}` #{nth} not found")
            return its[nth]
        if len(its) > 1:
            raise Undecided("anchor-ambiguous", f"{self.rel}: item `{path}` found {len(its)} times")
        return its[0]

    def slice(self, a, b):
        return self.bytes[a:b].decode("utf-8")

    def line_of(self, off):
        return self.bytes[:off].count(b"\n") + 1


class Piece:
    """The verbatim text of one repo item plus logged edits.

    Span edits are given in original-file byte offsets and applied first (right to left);
    text edits (regex / literal / callable) are applied afterwards in order."""

    def __init__(self, src, item, from_attrs=False, label=None):
        self.src = src
        self.item = item
        self.a = item["start"] if from_attrs else item["after_attrs"]
        self.b = item["end"]
        self.label = label or item["path"]
        self.span_edits = []
        self.text_edits = []
        self.log = []

    # ---- span edits (offsets in the original file)
    def replace(self, rule, a, b, new, why=""):
        if not (self.a <= a <= b <= self.b):
            raise Undecided("edit-out-of-range", f"{self.label}: {rule}")
        self.span_edits.append((a, b, new, rule, why))

    def insert(self, rule, at, new, why=""):
        self.replace(rule, at, at, new, why)

    # ---- text edits
    def sub(self, rule, pattern, repl, count=None, flags=0, why=""):
        """regex substitution; count=None: any number >= 0; count=int: exactly that many or Undecided;
        count='+': at least one."""
        self.text_edits.append(("re", rule, pattern, repl, count, flags, why))

    def lit(self, rule, old, new, count=1, why=""):
        self.text_edits.append(("lit", rule, old, new, count, 0, why))

    def fn(self, rule, f, why=""):
        """f(text) -> (new_text, list of (before, after))"""
        self.text_edits.append(("fn", rule, f, None, None, 0, why))

    def render(self):
        raw = self.src.bytes
        out = []
        pos = self.a
        edits = sorted(self.span_edits, key=lambda e: (e[0], e[1]))
        for (a, b, new, rule, why) in edits:
            if a < pos:
                raise Undecided("edit-overlap", f"{self.label}: {rule}")
            out.append(raw[pos:a].decode("utf-8"))
            out.append(new)
            before = raw[a:b].decode("utf-8")
            self.log.append({"item": self.label, "rule": rule, "before": before[:200], "after": new[:400],
                             "line": self.src.line_of(a), "why": why})
            pos = b
        out.append(raw[pos:self.b].decode("utf-8"))
        text = "".join(out)
        for (kind, rule, pat, repl, count, flags, why) in self.text_edits:
            if kind == "re":
                found = []

                def _r(m, repl=repl):
                    new = m.expand(repl) if isinstance(repl, str) else repl(m)
                    found.append((m.group(0), new))
                    return new

                text = re.sub(pat, _r, text, flags=flags)
                n = len(found)
                if (isinstance(count, int) and n != count) or (count == "+" and n == 0):
                    raise Undecided("edit-mismatch", f"{self.label}: rule {rule} pattern {pat!r} matched {n}, expected {count}")
                for (b_, a_) in found:
                    self.log.append({"item": self.label, "rule": rule, "before": b_[:200], "after": a_[:200], "why": why})
            elif kind == "lit":
                n = text.count(pat)
                if (isinstance(count, int) and n != count) or (count == "+" and n == 0):
                    raise Undecided("edit-mismatch", f"{self.label}: rule {rule} literal {pat[:60]!r} found {n}, expected {count}")
                text = text.replace(pat, repl)
                for _ in range(n):
                    self.log.append({"item": self.label, "rule": rule, "before": pat[:200], "after": repl[:200], "why": why})
            else:
                text, pairs = pat(text)
                for (b_, a_) in pairs:
                    self.log.append({"item": self.label, "rule": rule, "before": b_[:200], "after": a_[:200], "why": why})
        return text

    # ---- common structured edits -------------------------------------------------
    def contract(self, text, ret_name=None, rule="E4"):
        """Insert contract text (requires/ensures/decreases lines) before the body `{`;
        optionally name the return value: `-> T` becomes `-> (ret_name: T)`."""
        it = self.item
        if "body_open" not in it:
            raise Undecided("anchor-lost", f"{self.label}: no body")
        if ret_name:
            if "ret" not in it:
                raise Undecided("anchor-lost", f"{self.label}: no return type to name")
            r0, r1 = it["ret"]
            self.replace(rule, r0, r1, f"({ret_name}: {self.src.slice(r0, r1)})", "name the return value for ensures")
        self.insert(rule, it["body_open"], "\n" + text.rstrip() + "\n", "contract")

    def loop_spec(self, ordinal, text, iter_name=None, rule="E4"):
        loops = self.item.get("loops", [])
        if ordinal >= len(loops):
            raise Undecided("anchor-lost", f"{self.label}: loop #{ordinal} not found")
        lp = loops[ordinal]
        if iter_name:
            if lp["kind"] != "for":
                raise Undecided("anchor-lost", f"{self.label}: loop #{ordinal} is not a for loop")
            self.insert(rule, lp["expr"][0], f"{iter_name}: ", "name the ghost iterator")
        self.insert(rule, lp["body_open"], "\n" + text.rstrip() + "\n", "loop invariant")
        return lp

    def loop_body_prefix(self, ordinal, text, rule="E4"):
        loops = self.item.get("loops", [])
        if ordinal >= len(loops):
            raise Undecided("anchor-lost", f"{self.label}: loop #{ordinal} not found")
        self.insert(rule, loops[ordinal]["body_open"] + 1, "\n" + text.rstrip() + "\n", "proof block at loop body start")

    def expect_loops(self, n):
        got = len(self.item.get("loops", []))
        if got != n:
            raise Undecided("anchor-lost", f"{self.label}: expected {n} loops, found {got}")

    def body_prefix(self, text, rule="E4"):
        self.insert(rule, self.item["body_open"] + 1, "\n" + text.rstrip() + "\n", "ghost prefix")


# ----------------------------------------------------------------------------- generic text rules

def rule_panics(text, unit_type_sites=False):
    """E5: unreachable!/panic!/unimplemented!/todo! -> vstd::pervasive::unreached(); returns (text, pairs)."""
    pairs = []
    for name in ("unreachable", "panic", "unimplemented", "todo"):
        while True:
            calls = macro_calls(text, name)
            if not calls:
                break
            (s, o, c) = calls[0]
            end = c + 1
            before = text[s:end]
            # statement position followed by `;` then `}`  => drop the `;` so the block's type is inferred
            k = end
            while k < len(text) and text[k] in " \t":
                k += 1
            new = "vstd::pervasive::unreached()"
            if k < len(text) and text[k] == ";":
                k2 = k + 1
                while k2 < len(text) and text[k2] in " \t\n":
                    k2 += 1
                if k2 < len(text) and text[k2] == "}":
                    end = k + 1
                    before = text[s:end]
                else:
                    new = "vstd::pervasive::unreached::<()>()"
            text = text[:s] + new + text[end:]
            pairs.append((before, new))
    return text, pairs


def rule_asserts(text):
    """E5: assert!(c, ..)/debug_assert!(c, ..) -> assert(c)  (a proof obligation: the assertion never fires)."""
    pairs = []
    for name in ("debug_assert", "assert"):
        while True:
            calls = [c for c in macro_calls(text, name)]
            if not calls:
                break
            (s, o, c) = calls[0]
            args = split_top_commas(text[o + 1:c])
            new = f"assert({args[0].strip()})"
            pairs.append((text[s:c + 1], new))
            text = text[:s] + new + text[c + 1:]
    return text, pairs


def rule_format_msgs(text, repl="__msg()"):
    """E6: format!(..) -> opaque message"""
    pairs = []
    while True:
        calls = macro_calls(text, "format")
        if not calls:
            break
        (s, o, c) = calls[0]
        pairs.append((text[s:c + 1], repl))
        text = text[:s] + repl + text[c + 1:]
    return text, pairs


def _skip_ws(t, i):
    while i < len(t) and t[i] in " \t\r\n":
        i += 1
    return i


def _apply_fn_text(f, arg):
    """f is the text inside .map( .. ): a constructor path or a closure `|x| body`."""
    f = f.strip()
    if f.startswith("|"):
        j = f.index("|", 1)
        pat = f[1:j].strip()
        body = f[j + 1:].strip()
        return "{ let " + pat + " = " + arg + "; " + body + " }"
    return f"{f}({arg})"


def unfold_maps_after(text, recv_start, recv_end, kind="Result"):
    """The receiver expression is text[recv_start:recv_end]; peel every directly following `.map(F)` and rebuild the chain
    as nested matches (definition of Result::map / Option::map). Returns (new_text, before, after) or None if no .map follows."""
    fs = []
    j = recv_end
    while True:
        k = _skip_ws(text, j)
        if text.startswith(".map(", k):
            o = k + 4
            c = match_close(text, o)
            fs.append(text[o + 1:c])
            j = c + 1
        else:
            break
    if not fs:
        return None
    expr = text[recv_start:recv_end]
    n = 0
    for f in fs:
        n += 1
        v = f"v__{n}"
        if kind == "Result":
            expr = f"(match {expr} {{ Ok({v}) => Ok({_apply_fn_text(f, v)}), Err(e__) => Err(e__) }})"
        else:
            expr = f"(match {expr} {{ Some({v}) => Some({_apply_fn_text(f, v)}), None => None }})"
    before = text[recv_start:j]
    return text[:recv_start] + expr + text[j:], before, expr


def rule_match_strlits(text):
    """E3s: `match EXPR { "a" => A, "b" | "c" => B, _ => C }` (string-literal patterns) -> the if/else-if chain testing the
    literals in arm order (what a match on string literals means).  Returns (text, pairs)."""
    pairs = []
    guard = 0
    while True:
        guard += 1
        if guard > 50:
            raise Undecided("unsupported", "too many string matches")
        done = True
        for p in code_positions(text, "match "):
            if p > 0 and (text[p - 1].isalnum() or text[p - 1] == "_"):
                continue
            # scrutinee up to the `{` at depth 0
            j = p + 6
            while j < len(text):
                s = tokens_skip(text, j)
                if s is not None:
                    j = s
                    continue
                if text[j] in "([":
                    j = match_close(text, j) + 1
                    continue
                if text[j] == "{":
                    break
                j += 1
            if j >= len(text):
                continue
            scrut = text[p + 6:j].strip()
            close = match_close(text, j)
            inner = text[j + 1:close]
            arms = []
            k = 0
            ok = True
            while True:
                while k < len(inner) and inner[k] in " \t\n,":
                    k += 1
                if k >= len(inner):
                    break
                # line comments between arms
                s = tokens_skip(inner, k)
                if s is not None and not inner.startswith('"', k):
                    k = s
                    continue
                a = inner.find("=>", k)
                if a < 0:
                    ok = False
                    break
                pat = inner[k:a].strip()
                b = a + 2
                while b < len(inner) and inner[b] in " \t\n":
                    b += 1
                if b < len(inner) and inner[b] == "{":
                    e = match_close(inner, b)
                    body = inner[b:e + 1]
                    k = e + 1
                else:
                    rest = split_top_commas(inner[b:])[0]
                    body = "{ " + rest.strip() + " }"
                    k = b + len(rest)
                arms.append((pat, body))
            if not ok or not arms:
                continue
            lits_only = all(re.fullmatch(r'(?:"[^"\\]*"\s*\|\s*)*"[^"\\]*"|_', pat) for (pat, _) in arms)
            if not lits_only or not any(pat != "_" for (pat, _) in arms):
                continue
            if arms[-1][0] != "_" or any(pat == "_" for (pat, _) in arms[:-1]):
                continue
            simple = re.fullmatch(r"[\w.]+", scrut) is not None
            name = scrut if simple else "__m"
            out = []
            for (pat, body) in arms:
                if pat == "_":
                    out.append(body)
                else:
                    lits = re.findall(r'"[^"\\]*"', pat)
                    cond = " || ".join(f"{name}.eq_lit({l})" for l in lits)
                    out.append(f"if {cond} {body} else ")
            new = "".join(out)
            if not simple:
                new = "{ let __m = " + scrut + "; " + new + " }"
            pairs.append((text[p:close + 1], new))
            text = text[:p] + new + text[close + 1:]
            done = False
            break
        if done:
            return text, pairs
