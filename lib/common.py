"""Shared helpers for the /verif machinery: paths, subprocesses with wall/RSS guards, scratch dirs."""
import json
import os
import shutil
import signal
import sys
import subprocess
import tempfile
import threading
import time

VERIF = os.path.dirname(os.path.dirname(os.path.abspath(__file__)))
REPO = os.environ.get("VERIF_REPO", "/repo")
VX = os.path.join(VERIF, "vx", "target", "release", "vx")
SCRATCH_ROOT = os.environ.get("VERIF_SCRATCH", "/var/tmp")

OFFLINE_ENV = {
    "CARGO_NET_OFFLINE": "true",
}


class Undecided(Exception):
    """Raised when the machinery cannot decide (anchor lost, unsupported construct, tool limit).
    Never turned into a VIOLATION."""

    def __init__(self, reason, detail=""):
        super().__init__(reason)
        self.reason = reason
        self.detail = detail


LIVE_PGIDS = set()
SCRATCH_DIRS = set()


def scratch_dir(prefix):
    os.makedirs(SCRATCH_ROOT, exist_ok=True)
    d = tempfile.mkdtemp(prefix="verif-" + prefix + "-", dir=SCRATCH_ROOT)
    SCRATCH_DIRS.add(d)
    return d


def rm_rf(path):
    shutil.rmtree(path, ignore_errors=True)
    SCRATCH_DIRS.discard(path)


def _rss_kb_tree(pid):
    """Sum of RSS of pid and all descendants (kB)."""
    total = 0
    try:
        children = {}
        for d in os.listdir("/proc"):
            if not d.isdigit():
                continue
            try:
                with open(f"/proc/{d}/stat") as f:
                    st = f.read()
                rp = st.rfind(")")
                fields = st[rp + 2:].split()
                ppid = int(fields[1])
                rss_pages = int(fields[21])
                children.setdefault(ppid, []).append((int(d), rss_pages))
            except Exception:
                continue
        stack = [pid]
        seen = set()
        while stack:
            p = stack.pop()
            if p in seen:
                continue
            seen.add(p)
            for (c, rss) in children.get(p, []):
                total += rss * 4
                stack.append(c)
    except Exception:
        pass
    return total


def kill_children():
    for pg in list(LIVE_PGIDS):
        try:
            os.killpg(pg, signal.SIGKILL)
        except Exception:
            pass


def install_signal_cleanup():
    """A check that is itself terminated (outer timeout) must not leave cbmc/verus processes or scratch copies behind."""
    def handler(signum, frame):
        kill_children()
        for d in list(SCRATCH_DIRS):
            shutil.rmtree(d, ignore_errors=True)
        sys.stderr.write(f"check: terminated by signal {signum}; children killed, scratch removed; no verdict\n")
        os._exit(2)
    for sg in (signal.SIGTERM, signal.SIGINT, signal.SIGHUP):
        signal.signal(sg, handler)


def run(cmd, cwd=None, env=None, timeout=None, rss_limit_gb=None, stdin=None):
    """Run cmd (list). Returns dict(rc, out, err, wall_s, killed) where killed is None|'timeout'|'rss'."""
    e = dict(os.environ)
    e.update(OFFLINE_ENV)
    if env:
        e.update(env)
    t0 = time.time()
    p = subprocess.Popen(cmd, cwd=cwd, env=e, stdout=subprocess.PIPE, stderr=subprocess.PIPE,
                         stdin=subprocess.PIPE if stdin is not None else subprocess.DEVNULL,
                         text=True, start_new_session=True)
    LIVE_PGIDS.add(p.pid)
    killed = {"why": None}
    stop = threading.Event()

    def guard():
        while not stop.wait(2.0):
            if timeout is not None and time.time() - t0 > timeout:
                killed["why"] = "timeout"
            elif rss_limit_gb is not None and _rss_kb_tree(p.pid) > rss_limit_gb * 1024 * 1024:
                killed["why"] = "rss"
            if killed["why"]:
                try:
                    os.killpg(p.pid, signal.SIGKILL)
                except Exception:
                    pass
                return

    th = threading.Thread(target=guard, daemon=True)
    th.start()
    out, err = p.communicate(stdin)
    stop.set()
    LIVE_PGIDS.discard(p.pid)
    try:
        os.killpg(p.pid, signal.SIGKILL)   # stragglers of the group (cbmc children of a killed cargo-kani)
    except Exception:
        pass
    return {"rc": p.returncode, "out": out, "err": err, "wall_s": time.time() - t0, "killed": killed["why"]}


def read(path):
    with open(path, encoding="utf-8") as f:
        return f.read()


def write(path, text):
    os.makedirs(os.path.dirname(path), exist_ok=True)
    with open(path, "w", encoding="utf-8") as f:
        f.write(text)


def write_json(path, obj):
    os.makedirs(os.path.dirname(path), exist_ok=True)
    tmp = path + ".tmp"
    with open(tmp, "w", encoding="utf-8") as f:
        json.dump(obj, f, indent=1, sort_keys=False)
        f.write("\n")
    os.replace(tmp, path)
