"""Engine V: Verus on one generated file per unit (verbatim span extraction + logged edits + contracts)."""
import json
import os
import re

from common import Undecided, run, write

CANARY = "/*CANARY*/"

REFUTATION_MSGS = (
    "postcondition not satisfied",
    "precondition not satisfied",
    "assertion failed",
    "invariant not satisfied",
    "possible arithmetic underflow/overflow",
    "possible division by zero",
    "decreases not satisfied",
    "possible bit shift underflow/overflow",
    "unable to prove",
    "assertion failed",
    "loop invariant not satisfied",
    "could not prove termination",
    "failed this",
)
UNDECIDED_MSGS = ("rlimit", "resource limit", "timeout", "timed out")


class Part:
    def __init__(self, text, origin=None, edits=None):
        self.text = text if text.endswith("\n") else text + "\n"
        self.origin = origin  # None or dict(file=, item=, line=)
        self.edits = edits or []


class VerusFile:
    def __init__(self, name):
        self.name = name
        self.parts = []
        self.functions = []  # functions of /repo under contract: dict(path,file,line,end_line)
        self.expected = []   # verus function names that must be verified (suffix match)
        self.notes = []

    def add(self, text, origin=None, edits=None):
        self.parts.append(Part(text, origin, edits))

    def add_piece(self, piece, expected=None, under_contract=True):
        text = piece.render()
        src = piece.src
        it = piece.item
        origin = {"file": src.rel, "item": it["path"], "line": src.line_of(piece.a), "end_line": src.line_of(piece.b)}
        self.parts.append(Part(text, origin, piece.log))
        if under_contract and it.get("kind") == "fn":
            self.functions.append({"path": it["path"], "file": src.rel, "line": origin["line"], "end_line": origin["end_line"],
                                   "engine": "verus", "mode": "verus", "bound": "none"})
        if expected:
            self.expected.append(expected)
        return text

    def n_canaries(self):
        return "".join(p.text for p in self.parts).count(CANARY)

    def text(self, canary=None):
        """canary=None: normal text; canary=i: only the i-th CANARY marker becomes `false,` (one function at a time, so that a
        callee's `ensures false` cannot make its callers vacuous)."""
        t = "".join(p.text for p in self.parts)
        if canary is None or canary is False:
            return t.replace(CANARY, "")
        segs = t.split(CANARY)
        out = []
        for i, sgm in enumerate(segs):
            out.append(sgm)
            if i < len(segs) - 1:
                out.append("false," if i == canary else "")
        return "".join(out)

    def edits(self):
        out = []
        for p in self.parts:
            out.extend(p.edits)
        return out

    def locate(self, line):
        """Map a line of the generated file to the part it came from."""
        cur = 1
        for p in self.parts:
            n = p.text.count("\n")
            if cur <= line < cur + n:
                return p, line - cur
            cur += n
        return None, 0


def scan_trusted(text):
    found = []
    for m in re.finditer(r"#\[verifier::external_body\]\s*(?:pub\s+)?(?:(?:open|closed|uninterp)\s+)?(?:spec\s+|proof\s+|exec\s+)?(fn|struct|enum)\s+(\w+)", text):
        found.append(f"external_body {m.group(1)} {m.group(2)}")
    for m in re.finditer(r"assume_specification\s*(?:<[^\[]*>)?\s*\[\s*([^\]]+?)\s*\]", text):
        found.append("assume_specification " + re.sub(r"\s+", "", m.group(1)))
    for m in re.finditer(r"uninterp\s+spec\s+fn\s+(\w+)", text):
        found.append(f"uninterp spec fn {m.group(1)}")
    n_assume = len(re.findall(r"(?<![\w_])assume\s*\(", text))
    n_admit = len(re.findall(r"(?<![\w_])admit\s*\(", text))
    for m in re.finditer(r"#\[verifier::(external|external_fn_specification|external_type_specification|exec_allows_no_decreases_clause|accept_recursive_types|reject_recursive_types)[^\]]*\]", text):
        found.append("attr " + m.group(1))
    return found, n_assume, n_admit


def run_verus(vf, workdir, canary=None, rlimit=None, timeout=600, extra=None, tag=""):
    fname = os.path.join(workdir, vf.name + (f"_canary{canary}" if canary is not None else "") + tag + ".rs")
    text = vf.text(canary=canary)
    write(fname, text)
    cmd = ["verus", fname, "--output-json", "--time", "--error-format=json", "--multiple-errors", "50", "--triggers-mode", "silent"]
    if rlimit:
        cmd += ["--rlimit", str(rlimit)]
    if extra:
        cmd += extra
    r = run(cmd, cwd=workdir, timeout=timeout, rss_limit_gb=16)
    res = {"cmd": " ".join(cmd), "wall_s": r["wall_s"], "rc": r["rc"], "killed": r["killed"], "file": fname, "text": text}
    try:
        j = json.loads(r["out"][r["out"].index("{"):]) if "{" in r["out"] else {}
    except Exception:
        j = {}
    res["json"] = j
    diags = []
    for line in r["err"].splitlines():
        line = line.strip()
        if not line.startswith("{"):
            continue
        try:
            d = json.loads(line)
        except Exception:
            continue
        if d.get("$message_type") != "diagnostic":
            continue
        diags.append(d)
    res["diags"] = diags
    res["stderr_tail"] = r["err"][-3000:]
    vr = j.get("verification-results", {})
    res["verified"] = vr.get("verified", 0)
    res["errors"] = vr.get("errors", 0)
    funcs = {}
    smt_ms = 0
    try:
        for mod in j["times-ms"]["smt"]["smt-run-module-times"]:
            for fb in mod.get("function-breakdown", []):
                funcs[fb["function"]] = {"mode": fb.get("mode:", fb.get("mode", "")), "time_ms": fb.get("time", 0),
                                         "rlimit": fb.get("rlimit", 0), "success": fb.get("success", False)}
        smt_ms = j["times-ms"]["smt"]["total"]
    except Exception:
        pass
    res["functions"] = funcs
    res["smt_ms"] = smt_ms
    return res


def classify(vf, res):
    """Return (refutations, undecided_reasons). Each refutation: dict(obligation, message, origin, gen_line, snippet, rendered)."""
    refs = []
    und = []
    if res["killed"]:
        und.append(f"verus killed: {res['killed']}")
        return refs, und
    for d in res["diags"]:
        if d.get("level") != "error":
            continue
        msg = d.get("message", "")
        low = msg.lower()
        if low.startswith("aborting due to"):
            continue
        spans = d.get("spans", [])
        prim = [s for s in spans if s.get("is_primary")] or spans
        line = prim[0]["line_start"] if prim else 0
        snippet = (prim[0]["text"][0]["text"].strip() if prim and prim[0].get("text") else "")
        # the body location (non-primary span) tells which function failed
        body_lines = [s["line_start"] for s in spans if not s.get("is_primary")]
        part, rel = vf.locate(line)
        origin = part.origin if part else None
        if origin is None:
            for bl in body_lines:
                p2, _ = vf.locate(bl)
                if p2 and p2.origin:
                    origin = p2.origin
                    break
        if any(u in low for u in UNDECIDED_MSGS):
            und.append(f"{msg} (generated line {line})")
            continue
        if any(low.startswith(m) or m in low for m in REFUTATION_MSGS):
            label = origin["item"] if origin else "lemma/prelude"
            refs.append({"obligation": f"{label}: {msg}", "message": msg, "origin": origin, "gen_line": line,
                         "snippet": snippet, "rendered": d.get("rendered", "")[:3000]})
            continue
        und.append(f"verus error (not a verification failure): {msg[:300]} (generated line {line}: {snippet[:120]})")
    if not refs and not und:
        if res["rc"] != 0 or res["errors"] > 0 or not res["json"]:
            und.append("verus failed without a parsable diagnostic: " + res["stderr_tail"][-600:])
    return refs, und
