#!/usr/bin/env python3
"""Confirm and register a seeded property-breaking change, then run the /verif checks against it.

  tools/seed.py add <name> <prop> <change.diff> <demo.diff> --demo "<cargo test cmd>" --needs "<what it needs to manifest>" [--also C15,...]
  tools/seed.py run <name> [--tier quick|thorough]      # apply to /repo, run ./check for its properties, undo
  tools/seed.py runall [--tier ...]

Confirmation happens in a scratch worktree (/tmp/wt/confirm): pristine+demo passes, change+demo fails, change alone passes the suite."""
import argparse
import json
import os
import shutil
import subprocess
import sys
import time

HERE = os.path.dirname(os.path.dirname(os.path.abspath(__file__)))
SEEDED = os.path.join(HERE, "seeded")
WT = os.environ.get("SEED_WT", "/tmp/wt/confirm")
ENV = dict(os.environ, CARGO_NET_OFFLINE="true")


def sh(cmd, cwd=None, timeout=3600):
    r = subprocess.run(cmd, shell=True, cwd=cwd, env=ENV, capture_output=True, text=True, timeout=timeout)
    return r.returncode, r.stdout + r.stderr


def ensure_wt():
    if not os.path.isdir(WT):
        rc, out = sh(f"git -C /repo worktree add -q --detach {WT} HEAD")
        if rc:
            sys.exit("cannot create worktree: " + out)
    sh("git checkout -q --detach $(git -C /repo rev-parse HEAD) && git checkout -- . && git clean -fdq -e target", cwd=WT)


def reset_wt():
    sh("git checkout -- . && git clean -fdq -e target", cwd=WT)


def suite_ok(out):
    lines = [l for l in out.splitlines() if l.startswith("test result:")]
    return bool(lines) and all(" 0 failed" in l and l.startswith("test result: ok") for l in lines), lines


def add(a):
    ensure_wt()
    d = os.path.join(SEEDED, a.name)
    os.makedirs(d, exist_ok=True)
    meta = {"name": a.name, "property": a.prop, "also": a.also.split(",") if a.also else [], "needs_to_manifest": a.needs,
            "demo_cmd": a.demo, "base_commit": sh("git -C /repo rev-parse HEAD")[1].strip(), "ran": []}
    # 1. pristine + demo
    reset_wt()
    rc, out = sh(f"git apply {a.demo_diff}", cwd=WT)
    if rc:
        sys.exit("demo.diff does not apply: " + out)
    rc1, out1 = sh(a.demo, cwd=WT)
    meta["ran"].append({"step": "pristine + demo", "cmd": a.demo, "exit": rc1, "tail": out1[-600:]})
    # 2. change + demo
    rc, out = sh(f"git apply {a.change}", cwd=WT)
    if rc:
        sys.exit("change.diff does not apply: " + out)
    rc2, out2 = sh(a.demo, cwd=WT)
    meta["ran"].append({"step": "change + demo", "cmd": a.demo, "exit": rc2, "tail": out2[-1200:]})
    # 3. change alone, whole suite
    reset_wt()
    sh(f"git apply {a.change}", cwd=WT)
    rcb, outb = sh("cargo build --workspace --offline", cwd=WT)
    rc3, out3 = sh("cargo test --workspace --no-fail-fast --offline", cwd=WT)
    ok3, lines3 = suite_ok(out3)
    meta["ran"].append({"step": "change alone: cargo build --workspace && cargo test --workspace --no-fail-fast --offline", "build_exit": rcb, "exit": rc3,
                        "test_result_lines": lines3})
    reset_wt()
    meta["confirmed"] = (rc1 == 0 and rc2 != 0 and rcb == 0 and rc3 == 0 and ok3)
    shutil.copy(a.change, os.path.join(d, "patch.diff"))
    shutil.copy(a.demo_diff, os.path.join(d, "demo.diff"))
    json.dump(meta, open(os.path.join(d, "meta.json"), "w"), indent=1)
    print(f"{a.name}: pristine+demo exit={rc1}  change+demo exit={rc2}  suite-with-change exit={rc3} ok={ok3}  => confirmed={meta['confirmed']}")
    if meta["confirmed"]:
        run_one(a.name, a.tier)
    else:
        print("NOT confirmed; kept under seeded/ for inspection (meta.confirmed=false)")


def run_one(name, tier="quick", in_repo=False):
    """in_repo=True: the official way (git -C /repo apply; run; git -C /repo checkout -- .).
    in_repo=False: the same checks against a scratch worktree with the patch applied (VERIF_REPO), so that /repo stays usable."""
    d = os.path.join(SEEDED, name)
    meta = json.load(open(os.path.join(d, "meta.json")))
    env_prefix = ""
    wt = None
    if in_repo:
        rc, out = sh("git -C /repo status --porcelain")
        if out.strip():
            sys.exit("/repo is not clean: " + out)
        rc, out = sh(f"git -C /repo apply {os.path.join(d, 'patch.diff')}")
        if rc:
            sys.exit("patch does not apply to /repo: " + out)
    else:
        wt = f"/tmp/wt/run-{name}"
        sh(f"git -C /repo worktree remove --force {wt}")
        rc, out = sh(f"git -C /repo worktree add -q --detach {wt} HEAD")
        if rc:
            sys.exit("cannot create worktree: " + out)
        rc, out = sh(f"git apply {os.path.join(d, 'patch.diff')}", cwd=wt)
        if rc:
            sh(f"git -C /repo worktree remove --force {wt}")
            print(f"  {name}: patch does not apply to the current tree (needs a rebase): {out.strip()[:200]}")
            meta.setdefault("check_results", {})[tier] = {}
            meta["applies"] = False
            json.dump(meta, open(os.path.join(d, "meta.json"), "w"), indent=1)
            return False
        env_prefix = f"VERIF_REPO={wt} "
    results = {}
    try:
        for prop in [meta["property"]] + meta.get("also", []):
            t0 = time.time()
            rc, out = sh(f"{env_prefix}./check {prop} --tier {tier} --no-evidence", cwd=HERE, timeout=7200)
            lines = [l[:400] for l in out.splitlines() if l.startswith(("VIOLATION", "UNDECIDED", "KNOWN"))]
            results[prop] = {"exit": rc, "lines": lines, "wall_s": round(time.time() - t0, 1)}
            print(f"  {name} vs ./check {prop} --tier {tier}: exit={rc}")
            for l in lines[:6]:
                print("     " + l[:220])
    finally:
        if in_repo:
            sh("git -C /repo checkout -- .")
        else:
            sh(f"git -C /repo worktree remove --force {wt}")
    meta.setdefault("check_results", {})[tier] = results
    meta["detected"] = any(r["exit"] == 1 for r in results.values())
    json.dump(meta, open(os.path.join(d, "meta.json"), "w"), indent=1)
    sys.stdout.flush()
    return meta["detected"]


def main():
    ap = argparse.ArgumentParser()
    sub = ap.add_subparsers(dest="cmd")
    p = sub.add_parser("add")
    p.add_argument("name"); p.add_argument("prop"); p.add_argument("change"); p.add_argument("demo_diff")
    p.add_argument("--demo", required=True); p.add_argument("--needs", default=""); p.add_argument("--also", default=""); p.add_argument("--tier", default="quick")
    p = sub.add_parser("run"); p.add_argument("name"); p.add_argument("--tier", default="quick"); p.add_argument("--in-repo", action="store_true")
    p = sub.add_parser("runall"); p.add_argument("--tier", default="quick"); p.add_argument("--in-repo", action="store_true"); p.add_argument("--jobs", type=int, default=1)
    a = ap.parse_args()
    if a.cmd == "add":
        add(a)
    elif a.cmd == "run":
        run_one(a.name, a.tier, a.in_repo)
    elif a.cmd == "runall":
        names = []
        for n in sorted(os.listdir(SEEDED)):
            mp = os.path.join(SEEDED, n, "meta.json")
            if os.path.exists(mp) and json.load(open(mp)).get("confirmed"):
                names.append(n)
        if a.jobs > 1 and not a.in_repo:
            import concurrent.futures as cf
            with cf.ThreadPoolExecutor(max_workers=a.jobs) as ex:
                res = list(ex.map(lambda n: run_one(n, a.tier, False), names))
        else:
            res = [run_one(n, a.tier, a.in_repo) for n in names]
        print(f"detected {sum(1 for r in res if r)} of {len(names)} confirmed seeded changes")


if __name__ == "__main__":
    main()
