#!/usr/bin/env python3
"""Render /verif/seeded/*/meta.json as the markdown table of DESIGN.md §11 (between the markers)."""
import json, os, re
HERE = os.path.dirname(os.path.dirname(os.path.abspath(__file__)))
rows = []
for n in sorted(os.listdir(os.path.join(HERE, "seeded"))):
    mp = os.path.join(HERE, "seeded", n, "meta.json")
    if not os.path.exists(mp):
        continue
    m = json.load(open(mp))
    if not m.get("confirmed"):
        continue
    res = m.get("check_results", {}).get("quick", {})
    verdicts = []
    caught_by = set()
    for prop, r in res.items():
        v = {0: "missed (exit 0)", 1: "VIOLATION", 2: "undecided (exit 2)"}.get(r["exit"], f"exit {r['exit']}")
        verdicts.append(f"{prop}: {v}")
        for l in r.get("lines", []):
            mm = re.search(r"replays/\w+/([a-z_0-9]+?)__", l)
            if mm and l.startswith("VIOLATION"):
                caught_by.add(mm.group(1))
    rows.append((n, m["property"], m.get("needs_to_manifest", "")[:110], "; ".join(verdicts), ", ".join(sorted(caught_by)) or "—"))
out = ["| seeded change | property | needs to manifest | verdict of the checks | refuting unit(s) |", "|---|---|---|---|---|"]
for r in rows:
    out.append("| " + " | ".join(x.replace("|", "/") for x in r) + " |")
det = sum(1 for r in rows if "VIOLATION" in r[3])
und = sum(1 for r in rows if "VIOLATION" not in r[3] and "undecided" in r[3])
out.append("")
out.append(f"{det} of {len(rows)} confirmed seeded changes are reported as VIOLATION, {und} as undecided (anchor lost / structural change), {len(rows) - det - und} are missed (they sit in code outside every unit: see the unverified lists).")
table = "\n".join(out)
p = os.path.join(HERE, "DESIGN.md")
s = open(p).read()
a = s.index("<!-- SEEDS:BEGIN -->") + len("<!-- SEEDS:BEGIN -->")
b = s.index("<!-- SEEDS:END -->")
open(p, "w").write(s[:a] + "\n" + table + "\n" + s[b:])
print(table)
