#!/usr/bin/env python3
"""Development-time mutation self-test:  tools/mut.py <prop> [--unit U] <relfile> <old> <new>
Copies /repo to a scratch dir, applies the textual mutation (must match exactly once), runs ./check with VERIF_REPO
pointing at the copy, prints the verdict, removes the copy."""
import os, shutil, subprocess, sys, tempfile
args = sys.argv[1:]
prop = args.pop(0)
unit = []
while args and args[0] == "--unit":
    args.pop(0); unit += ["--unit", args.pop(0)]
tier = []
if args and args[0] == "--tier":
    args.pop(0); tier = ["--tier", args.pop(0)]
rel, old, new = args
d = tempfile.mkdtemp(prefix="verif-mut-", dir="/var/tmp")
try:
    subprocess.check_call(["rsync", "-a", "--exclude", "target", "--exclude", ".git", "/repo/", d + "/"])
    p = os.path.join(d, rel)
    s = open(p).read()
    if s.count(old) != 1:
        print(f"mutation anchor found {s.count(old)} times"); sys.exit(3)
    open(p, "w").write(s.replace(old, new))
    env = dict(os.environ, VERIF_REPO=d)
    r = subprocess.run([os.path.join(os.path.dirname(__file__), "..", "check"), prop, "--no-evidence"] + unit + tier, env=env, capture_output=True, text=True)
    out = [l for l in r.stdout.splitlines() if l.startswith(("VIOLATION", "UNDECIDED", "KNOWN", prop))]
    print("\n".join(l[:300] for l in out)); print("exit", r.returncode)
finally:
    shutil.rmtree(d, ignore_errors=True)
