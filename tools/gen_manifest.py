#!/usr/bin/env python3
"""Regenerate /verif/MANIFEST.json from the unit registry + the per-property texts below."""
import importlib, json, os, sys
HERE = os.path.dirname(os.path.dirname(os.path.abspath(__file__)))
sys.path.insert(0, os.path.join(HERE, "lib")); sys.path.insert(0, HERE)
units = []
for f in sorted(os.listdir(os.path.join(HERE, "units"))):
    if f.endswith(".py") and not f.startswith("_"):
        units.append(importlib.import_module("units." + f[:-3]))

TEXT = {
 "C01": ("proof", "Partial. Proved (Kani complete-finite + Verus): the C backend's primitive spelling tables denote the Rust ABI and match the MAKE_SLICES_AND_OPTIONS mirror lines extracted from capi.h.jinja; ast->hir primitive lowering and the gate keep every primitive's width/sign/kind (Ordering == i8, what the macro compiles); runtime repr(C) layouts of DiplomatResult/slices/DiplomatWrite/DiplomatCallback; is_ffi_safe/ffi_safe_version (used by the macro's param_ty) equal their spec; the C declaration of a method has one parameter per Rust parameter plus the trailing DiplomatWrite* for every write return shape (gen_method prefix); the C result struct has exactly the non-zero-sized arms (gen_result_ty); Enum::new discriminants == rustc's rule."),
 "C03": ("proof", "Partial (Rust runtime half). Kani harness-checked contracts for every impl in runtime/src/result.rs (complete: loop-free, full-domain; generic lifecycle over all drop-glue combinations), DiplomatOwnedSlice/UTF8 From/Into/Drop (all lengths for pointer/len; bounded contents), DiplomatCallback Drop, buffer writer create/destroy: exactly-once drop, no double free / use-after-free (CBMC memory checks). Found and fixed a genuine double drop."),
 "C04": ("proof", "Partial (the analysis). Verus, unbounded: hir::LifetimeTransitivityIterator::{new,next} maintain the closure invariant and the collect() driver theorem shows all_longer/all_shorter_lifetimes == reflexive-transitive closure of the outlives graph, start first, no duplicates, for any number of lifetimes; the elision state machine and the AST->HIR edge copy; ast extend_implicit_lifetime_bounds and the recursive DFS of ast::LifetimeTransitivity; ReturnType::used_method_lifetimes == non-static lifetimes of success and error payloads; BorrowingParamVisitor::visit_param, StructBorrowInfo::compute_for_struct_field and the borrow_map construction of BorrowingParamVisitor::new against an oracle written from the property (edges per output lifetime == parameters / struct slots mentioning a lifetime of its all_longer set); TypeContext::validate_ty_in_method rejects a method iff a def-site bound of a parameter/return type is missing from the method's LifetimeEnv; one obligation (visit_param's unreachable! arm) is refuted on the unchanged tree and listed as a known finding. Kani bounded (<= 3 lifetimes): LinkedLifetimes use/def pairs are positional and total."),
 "C05": ("proof", "Partial (the gate). Verus, unbounded, on verbatim text: lower_type, lower_out_type, lower_callback_param, lower_return_type, lower_self_param return Ok exactly for the documented shapes (independent oracles allowed_in/allowed_out/return_ok/self_ok) and push an error on every rejection; is_ffi_safe == spec; lower_param/lower_many_params/lower_method/lower_all_methods/lower_struct/lower_out_struct: a method is accepted only if self, every non-write parameter and the return type pass, DiplomatWrite only as last parameter; validate_ty_in_method reports exactly the def-site bounds not restated on a method; ErrorStore context attribution."),
 "C06": ("proof", "Partial (inheritance of abi_rename). Verus: RenameAttr::{extend,attrs_for_inheritance,is_empty,from_pattern}, ast::Attrs::attrs_for_inheritance, hir::Attrs::for_inheritance against the documented rule; lemma: effective pattern = last non-empty of (module, impl|type, method); the opaque destructor name and Method::from_syn's abi name are built from the type's own rename attribute (statement prefixes)."),
 "C07": ("proof", "Partial (primitive tables). Kani complete-finite: Dart ffi annotations / slice records / allocators and Kotlin JNA types for all 15 primitives have the width, signedness and float kind of the Rust ABI type; ast->hir primitive lowering keeps the primitive; Verus: ReturnType/SuccessType accessors see through Infallible/Fallible/Nullable alike; Dart gen_method_info declares the trailing write parameter exactly for write methods (statement range)."),
 "C08": ("proof", "Partial (the layout routine and its consumers' decisions). Verus, unbounded: struct_field_info offsets/size/align/padding fields/scalar counts == Rust-reference repr(C) for any number of fields (callee abstracted by contract); generate_fields' force-padding decision and the number of padding slots emitted after a field == wasm_abi_quirks rule / layout padding_count (statement fragments); gen_c_to_js_deref_for_type reads every field at base+offset through wrapper structs. Kani complete-finite: primitive and leaf-type layouts == wasm32 ABI and satisfy that callee contract; Kani bounded: whole routine vs oracle for 1..2 (quick) / 1..4 (thorough) fields."),
 "C10": ("proof", "Partial. Verus: ffi_safe_version spelling-independence/idempotence lemmas; the proc macro's return-type rewriting statement (gen_custom_type_method) compiles Option<pointer> as written and every other Option/Result as DiplomatResult with the right conversion; lowering maps Option<&/Box Opaque> to an optional pointer and every other Option to DiplomatOption/Nullable, Result only top-level -> Fallible; the C backend gives Option<()>/Result<(),E> write methods the same trailing write parameter and result structs without zero-sized arms, and names the option mirror of string payloads by code-unit width for all three encodings (fmt_optional_type_name); std Option of a non-pointer payload is accepted only where the macro converts it (not nested in Result/Option arms, not as callback return). Kani complete: DiplomatResult/Option wire layout {payload,is_ok}, is_ok == Ok/Some, unit arms occupy no payload, pointer null niche."),
 "C11": ("proof", "Small partial. Verus, unbounded: Dart is_contiguous_enum and JS gen_enum's is_contiguous flag are true iff discriminant(j) == j for every variant (the index shortcut is value-preserving); the fold step of Kotlin's EnumVariants::new keeps the same invariant; ast::Enum::new assigns explicit-or-previous+1 discriminants (== rustc) for any number of variants."),
 "C12": ("proof", "Kani harness-checked step contract of write_str on the real code (bounded buffer: a bounded stand-in, not counted as proved), fixed-buffer and Rust-owned writers end to end (bounded), accessors (complete); Verus lemma (unbounded number of writes): content == chunks before the first refused growth, no partial chunk, sticky flag."),
 "C13": ("proof", "Partial (evaluation and inheritance). Verus, all depths: satisfies_cfg == denotational semantics of not/any/all/*/auto/name/name=value incl. termination; for_inheritance rules; the gate reports unsupported backend features (incl. 'static slices); lower_all_methods skips exactly the methods disabled for the backend. Kani: `supports = <name>` selects the documented flag for all 24 names and all flag values (complete); backend-name atoms match exactly (all ASCII strings of length <= 4, bounded)."),
 "C15": ("proof", "Partial (per-function panic freedom). Every Verus unit turns unreachable!/assert!/expect/index/overflow sites of its functions into obligations; Kani units carry assertion/overflow/bounds checks: lower_type family (5 expect/unreachable sites under the LookupId contract), struct_field_info (2 assert!, from_size_align.unwrap), LifetimeTransitivityIterator::next indexing, formatter tables, satisfies_cfg, visit_param, Dart alloc_name and JS gen_c_to_js_for_return_type (three known findings: reachable unreachable!/unwrap sites, replayed), gen_c_to_js_deref_for_type, gen_result_ty; Kani bounded: tool::ErrorStore never panics on its RefCells."),
 "C16": ("proof", "Kani: every From/Into/Deref/DerefMut/Drop impl of runtime/src/slices.rs round-trips pointer/len for every length (symbolic-size allocation, complete) and contents (bounded backing storage: bounded stand-ins); NULL,0 accepted as a valid empty Rust slice / Box (complete); diplomat_is_str == RFC 3629 acceptor for all byte strings of length <= 4 (5 thorough) (bounded); diplomat_alloc/free."),
}
NA = {
 "C02": "correctness of emitted C++ source text under a C++ compiler; the generators are string/askama code outside Verus and Kani and no Rust contract expresses the property",
 "C09": "acceptance of generated C/C++/JS and macro output by external compilers (gcc/g++/node/rustc); no contract whose truth implies acceptance; include-set/path/keyword code is string/HashSet/syn code outside both verifiers",
 "C14": "2-safety hyperproperty over whole process runs and input permutations; function contracts relate one call's pre- and post-state",
 "C17": "precedence is fixed by call order across main/gen (I/O, syn) and HashMap<String,toml::Value> string routing; Kani does not terminate on Config::set/get_overridden (25 min, 3 keys), Verus has no str reasoning for starts_with/replace/split",
}
checks = []
for pid in sorted(TEXT):
    us = [u for u in units if pid in u.PROPERTIES]
    engines = sorted(set(u.ENGINE for u in us))
    unver = []
    assum = []
    for u in us:
        unver += list(getattr(u, "UNVERIFIED", {}).get(pid, []))
        assum += list(getattr(u, "ASSUMPTIONS", []))
    lvl, txt = TEXT[pid]
    tech = []
    if "verus" in engines: tech.append("Verus (Z3) function contracts + loop invariants + lemmas on verbatim span-extracted functions")
    if "kani" in engines: tech.append("Kani/CBMC harness-checked function contracts on a scratch copy of the real crate")
    checks.append({
        "property_id": pid, "quick_cmd": f"./check {pid} --tier quick", "thorough_cmd": f"./check {pid} --tier thorough",
        "evidence_file": f"/verif/evidence/{pid}.json", "replay_cmd_template": f"./check {pid} --replay {{path}}",
        "engine": "+".join(engines),
        "level_claimed": {"category": lvl, "text": txt + " Units: " + ", ".join(u.NAME for u in us) + ".", "design_ref": f"DESIGN.md §3 {pid}"},
        "level_note": "UNVERIFIED remainder: " + "; ".join(sorted(set(unver)))[:1500] + " || ASSUMPTIONS: " + "; ".join(sorted(set(assum)))[:2500],
        "technique": "contract-based deductive verification: " + " ; ".join(tech),
    })
m = {
 "version": 1,
 "setup_cmd": "cd /verif/vx && CARGO_NET_OFFLINE=true cargo build --release --offline",
 "hooks": {"guard": "kani", "enable": "no hooks are committed to /repo: contracts, #[cfg(kani)] harness modules and #[cfg(kani)] constructor hooks are appended (add-only) to a scratch copy of /repo at check time; cfg(kani) is set only by cargo-kani; Verus units extract function text from /repo verbatim and use no cfg",
           "baseline_off_cmd": "cd /repo && cargo test --workspace --no-fail-fast --offline", "source_commits": [], "add_only": True},
 "engines": [
   {"name": "verus", "path": "/verif/lib/verus_engine.py", "serves_properties": sorted(p for p in TEXT if any(u.ENGINE == "verus" and p in u.PROPERTIES for u in units)), "kind_free_text": "Verus 0.2026.09.13 (Z3) on one generated file per unit: verbatim span extraction (vx, syn) + logged edit rules + spliced contracts"},
   {"name": "kani", "path": "/verif/lib/kani_engine.py", "serves_properties": sorted(p for p in TEXT if any(u.ENGINE == "kani" and p in u.PROPERTIES for u in units)), "kind_free_text": "Kani 0.68 / CBMC 6.11 on a scratch rsync copy of /repo with harness modules appended to the real source files"}],
 "checks": checks,
 "notes": "exit 0 = all obligations discharged; exit 1 + VIOLATION = definite refutation (Kani counterexample replayed natively, or Verus refutation marked no-failing-input-found); exit 2 + UNDECIDED = anchor lost / unsupported construct / tool limit (never an alarm). KNOWN_FINDINGS.txt records the fixed C03 defect.",
 "not_applicable": [{"property_id": k, "reason": v} for k, v in sorted(NA.items())],
}
json.dump(m, open(os.path.join(HERE, "MANIFEST.json"), "w"), indent=1)
print("wrote MANIFEST.json with", len(checks), "checks")
