"""DRAFT, NOT REGISTERED (Verus/Z3 does not terminate on it in this sandbox: DESIGN §9). V lookup_id: core/src/hir/type_context.rs LookupId::{new, resolve_struct, resolve_out_struct} — the tables that turn an AST item reached through a
path into the id of ITS definition.  The gate's per-position rules (unit lower_type_gate) are stated over these lookups: an `#[diplomat::out]` struct is
refused as an input because `resolve_struct` does not know it.  Contract: for pairwise distinct items, every struct resolves to its own index, in the
table of its own kind — i.e. the key identifies the item (two items in different modules may share a name).
E7m: each `xs.iter().enumerate().map(|(index, item)| (KEY, Id(index))).collect()` of `new` is desugared to an index loop inserting (KEY, Id(index)) in order
(HashMap::from_iter: later entries win); the KEY expression and the argument of `.get(..)` in the resolve functions are taken from the code."""
import re
from rsrc import Src, Piece, match_close
from verus_engine import VerusFile, CANARY
from common import Undecided
import vhelp

NAME = "lookup_id"
ENGINE = "verus"
PROPERTIES = {"C05": "LookupId resolves every struct / out-struct item to its own definition index in the table of its own kind (the key identifies the item, not just its name)"}
F = "core/src/hir/type_context.rs"

PRELUDE = r"""
pub mod ast {
    use vstd::prelude::*;
    #[verifier::external_body] pub struct Ident { x: u8 }
    pub struct Struct { pub name: Ident, pub rest: u64 }
    pub struct OpaqueType { pub name: Ident, pub rest: u64 }
    pub struct Enum { pub name: Ident, pub rest: u64 }
    pub struct Trait { pub name: Ident, pub rest: u64 }
}
pub struct ItemAndInfo<'ast, T> { pub item: &'ast T }
#[derive(Copy, Clone, PartialEq, Eq, Structural)] pub struct StructId(pub usize);
#[derive(Copy, Clone, PartialEq, Eq, Structural)] pub struct OutStructId(pub usize);
#[derive(Copy, Clone, PartialEq, Eq, Structural)] pub struct OpaqueId(pub usize);
#[derive(Copy, Clone, PartialEq, Eq, Structural)] pub struct EnumId(pub usize);
#[derive(Copy, Clone, PartialEq, Eq, Structural)] pub struct TraitId(pub usize);
// E3: std HashMap carried as an abstract map (new / insert / get)
#[verifier::external_body] #[verifier::reject_recursive_types(K)] #[verifier::reject_recursive_types(V)] pub struct HashMap<K, V> { k: Vec<K>, v: Vec<V> }
impl<K, V> HashMap<K, V> {
    pub uninterp spec fn view(&self) -> Map<K, V>;
    #[verifier::external_body] pub fn new() -> (r: Self) ensures r@ == Map::<K, V>::empty() { unimplemented!() }
    #[verifier::external_body] pub fn insert(&mut self, k: K, v: V) -> (o: Option<V>) ensures final(self)@ == old(self)@.insert(k, v) { unimplemented!() }
    #[verifier::external_body] pub fn get(&self, k: K) -> (r: Option<&V>) ensures (match r { Some(v) => self@.contains_key(k) && *v == self@[k], None => !self@.contains_key(k) }) { unimplemented!() }
}
pub open spec fn distinct<T>(xs: Seq<ItemAndInfo<T>>) -> bool { forall|i: int, j: int| 0 <= i < j < xs.len() ==> *xs[i].item != *xs[j].item }
"""

LOOP = """{{
                // E7m: `{xs}.iter().enumerate().map(|(index, item)| ({key}, {ctor}(index))).collect()` as an index loop (later entries win)
                let mut m__ = HashMap::new();
                let mut index: usize = 0;
                while index < {xs}.len()
                    invariant index <= {xs}@.len(),
                        // every item filed so far has an entry, and the entry's index is that of an item filed under the same key
                        forall|j: int| 0 <= j < index ==> #[trigger] m__@.contains_key({keyj})
                            && m__@[{keyj}].0 < index && {keyw} == {keyj},
                    decreases {xs}@.len() - index
                {{
                    let item = &{xs}[index];
                    m__.insert({key}, {ctor}(index));
                    index += 1;
                }}
                m__
            }}"""


def e7m(text):
    pairs = []
    pat = re.compile(r"(\w+)\s*\.iter\(\)\s*\.enumerate\(\)\s*\.map\(\|\(index, item\)\| \((.+?), (\w+)\(index\)\)\)\s*\.collect\(\)", re.S)
    n = 0
    while True:
        m = pat.search(text)
        if not m:
            break
        xs, key, ctor = m.group(1), m.group(2).strip(), m.group(3)
        def at(ix):
            return re.sub(r"\bitem\b", f"{xs}@[{ix}]", key)
        new = LOOP.format(xs=xs, key=key, ctor=ctor, keyj=at("j"), keyw=at("m__@[" + at("j") + "].0 as int"))
        pairs.append((m.group(0)[:120], f"index loop inserting ({key}, {ctor}(index))"))
        text = text[:m.start()] + new + text[m.end():]
        n += 1
    if n != 5:
        raise Undecided("edit-mismatch", f"E7m: expected 5 `iter().enumerate().map(|(index, item)| (KEY, Id(index))).collect()` chains in LookupId::new, found {n}")
    return text, pairs


def build(tier):
    vf = VerusFile(NAME)
    src = Src(F)
    vf.add(vhelp.HEADER)
    vf.add(PRELUDE)
    vhelp.typedef(vf, src, "LookupId", "struct", subs=[("E1", r"\n    (\w+_map):", r"\n    pub \1:")])
    vf.add("impl<'ast> LookupId<'ast> {\n")
    # the key under which `new` files item j, as a spec expression, is whatever the code says; recover it for the contract
    it = src.item("impl LookupId<'ast>::new", "fn")
    body = src.slice(it["start"], it["end"])
    keys = dict((m.group(1), m.group(2).strip()) for m in re.finditer(r"(\w+)\s*\.iter\(\)\s*\.enumerate\(\)\s*\.map\(\|\(index, item\)\| \((.+?), \w+\(index\)\)\)", body, re.S))
    if set(keys) != {"out_structs", "structs", "opaques", "enums", "traits"}:
        raise Undecided("anchor-lost", f"LookupId::new: map constructions found for {sorted(keys)}")
    def kj(xs, ix):
        return re.sub(r"\bitem\b", f"{xs}@[{ix}]", keys[xs])
    p = Piece(src, it)
    p.fn("E7m", e7m, why="iterator enumerate/map/collect into a HashMap desugared to an index loop of inserts")
    p.sub("E1", r"\A(\s*)fn new", r"\1pub fn new", count=1, why="private fn made pub")
    p.sub("E3", r"&\[ItemAndInfo<'ast, (ast::\w+)>\]", r"&Vec<ItemAndInfo<'ast, \1>>", count=5, why="slice parameter carried as Vec (indexing and len only)")
    p.contract(f"""        ensures {CANARY}
            forall|j: int| 0 <= j < structs@.len() ==> #[trigger] r.struct_map@.contains_key({kj('structs','j')}) && r.struct_map@[{kj('structs','j')}].0 < structs@.len() && {kj('structs', 'r.struct_map@[' + kj('structs','j') + '].0 as int')} == {kj('structs','j')},
            forall|j: int| 0 <= j < out_structs@.len() ==> #[trigger] r.out_struct_map@.contains_key({kj('out_structs','j')}) && r.out_struct_map@[{kj('out_structs','j')}].0 < out_structs@.len() && {kj('out_structs', 'r.out_struct_map@[' + kj('out_structs','j') + '].0 as int')} == {kj('out_structs','j')},""", ret_name="r")
    vf.add_piece(p, expected="new")
    for fn, mp in (("resolve_struct", "struct_map"), ("resolve_out_struct", "out_struct_map")):
        it2 = src.item(f"impl LookupId<'ast>::{fn}", "fn")
        b2 = src.slice(it2["start"], it2["end"])
        m = re.search(rf"self\.{mp}\.get\((.+?)\)\.copied\(\)", b2)
        if not m:
            raise Undecided("anchor-lost", f"{fn}: `self.{mp}.get(..).copied()` not found")
        arg = m.group(1)
        p2 = Piece(src, it2)
        p2.sub("E1", r"pub\(super\)", "pub", count=1)
        p2.sub("E10", rf"self\.{mp}\.get\((.+?)\)\.copied\(\)", rf"(match self.{mp}.get(\1) {{ Some(v) => Some(*v), None => None }})", count=1, why="Option::copied unfolded")
        p2.contract(f"        ensures r == (if self.{mp}@.contains_key({arg}) {{ Some(self.{mp}@[{arg}]) }} else {{ None }}),", ret_name="r")
        vf.add_piece(p2, expected=fn)
    vf.add("}\n")
    # ---- the property-level theorem, checked through the three contracts
    vf.add(f"""
// every struct item resolves to ITS OWN index (requires only that the items are pairwise distinct: two modules may each declare a struct `Info`)
fn theorem_struct_resolves_to_itself<'ast>(out_structs: &Vec<ItemAndInfo<'ast, ast::Struct>>, structs: &Vec<ItemAndInfo<'ast, ast::Struct>>,
        opaques: &Vec<ItemAndInfo<'ast, ast::OpaqueType>>, enums: &Vec<ItemAndInfo<'ast, ast::Enum>>, traits: &Vec<ItemAndInfo<'ast, ast::Trait>>, j: usize)
    requires distinct(structs@), distinct(out_structs@), j < structs@.len(),
{{
    let l = LookupId::new(out_structs, structs, opaques, enums, traits);
    let r = l.resolve_struct(structs[j].item);
    assert(r == Some(StructId(j)));
}}
fn theorem_out_struct_resolves_to_itself<'ast>(out_structs: &Vec<ItemAndInfo<'ast, ast::Struct>>, structs: &Vec<ItemAndInfo<'ast, ast::Struct>>,
        opaques: &Vec<ItemAndInfo<'ast, ast::OpaqueType>>, enums: &Vec<ItemAndInfo<'ast, ast::Enum>>, traits: &Vec<ItemAndInfo<'ast, ast::Trait>>, j: usize)
    requires distinct(structs@), distinct(out_structs@), j < out_structs@.len(),
{{
    let l = LookupId::new(out_structs, structs, opaques, enums, traits);
    let r = l.resolve_out_struct(out_structs[j].item);
    assert(r == Some(OutStructId(j)));
}}
""")
    vf.expected += ["theorem_struct_resolves_to_itself", "theorem_out_struct_resolves_to_itself"]
    vf.add(vhelp.FOOTER)
    return vf


CANARY_FUNCTIONS = ["new"]
ASSUMPTIONS = [
    "E3: std HashMap as an abstract map (new / insert / get by key); E7m: enumerate/map/collect desugared to an index loop of inserts in order (HashMap::from_iter semantics)",
    "AST items re-declared as (name, rest): two items are distinct when they differ in anything; key equality is value equality of what the key refers to (derive(Hash, Eq) on the AST types)",
    "precondition of the theorems: items of one kind pairwise distinct (the Env holds each definition once)",
]
UNVERIFIED = {"C05": ["that an out-struct is absent from struct_map (disjointness of the two input lists: lower_all partitions by the `out` attribute, read)", "opaque / enum / trait tables (same construction, no theorem stated)"]}
