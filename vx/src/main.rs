//! vx — span indexer for the /verif machinery.
//!
//! `vx index FILE.rs`  prints a JSON index of every item in FILE (recursively through inline
//! modules, impls and traits) with *byte offsets into the original file*, so that the Python
//! driver can cut the verbatim source text of a function, and knows where the signature ends,
//! where each loop header/body starts and where each macro invocation sits.
//!
//! Nothing is pretty-printed: the consumer always slices the original bytes.

use proc_macro2::{LineColumn, Span};
use serde_json::{json, Value};
use syn::spanned::Spanned;
use syn::visit::{self, Visit};

struct LineIndex {
    /// byte offset of the start of each line (1-based lines => index line-1)
    starts: Vec<usize>,
    src: String,
}

impl LineIndex {
    fn new(src: &str) -> Self {
        let mut starts = vec![0usize];
        for (i, b) in src.bytes().enumerate() {
            if b == b'\n' {
                starts.push(i + 1);
            }
        }
        LineIndex { starts, src: src.to_string() }
    }
    fn off(&self, lc: LineColumn) -> usize {
        let ls = self.starts[lc.line - 1];
        let line = &self.src[ls..];
        let mut n = 0usize;
        let mut bytes = 0usize;
        for ch in line.chars() {
            if n == lc.column {
                break;
            }
            n += 1;
            bytes += ch.len_utf8();
        }
        ls + bytes
    }
    fn range(&self, sp: Span) -> (usize, usize) {
        (self.off(sp.start()), self.off(sp.end()))
    }
}

fn squash(ts: impl quote_like::ToTokensLike) -> String {
    ts.tokens_string().split_whitespace().collect::<Vec<_>>().join("")
}

mod quote_like {
    pub trait ToTokensLike {
        fn tokens_string(&self) -> String;
    }
    impl ToTokensLike for syn::Type {
        fn tokens_string(&self) -> String {
            use syn::__private::ToTokens;
            self.to_token_stream().to_string()
        }
    }
    impl ToTokensLike for syn::Path {
        fn tokens_string(&self) -> String {
            use syn::__private::ToTokens;
            self.to_token_stream().to_string()
        }
    }
}

struct Indexer<'a> {
    li: &'a LineIndex,
    stack: Vec<String>,
    items: Vec<Value>,
}

struct BodyScan<'a> {
    li: &'a LineIndex,
    loops: Vec<Value>,
    macros: Vec<Value>,
    closures: Vec<Value>,
}

impl<'a, 'ast> Visit<'ast> for BodyScan<'a> {
    fn visit_item(&mut self, _i: &'ast syn::Item) {
        // nested items are indexed separately; do not mix their loops into this fn
    }
    fn visit_expr_for_loop(&mut self, e: &'ast syn::ExprForLoop) {
        let (s, en) = self.li.range(e.span());
        let (bs, _) = self.li.range(e.body.brace_token.span.open());
        let (ps, pe) = self.li.range(e.pat.span());
        let (es, ee) = self.li.range(e.expr.span());
        self.loops.push(json!({"kind":"for","start":s,"end":en,"body_open":bs,
            "pat":[ps,pe],"expr":[es,ee]}));
        visit::visit_expr_for_loop(self, e);
    }
    fn visit_expr_while(&mut self, e: &'ast syn::ExprWhile) {
        let (s, en) = self.li.range(e.span());
        let (bs, _) = self.li.range(e.body.brace_token.span.open());
        self.loops.push(json!({"kind":"while","start":s,"end":en,"body_open":bs}));
        visit::visit_expr_while(self, e);
    }
    fn visit_expr_loop(&mut self, e: &'ast syn::ExprLoop) {
        let (s, en) = self.li.range(e.span());
        let (bs, _) = self.li.range(e.body.brace_token.span.open());
        self.loops.push(json!({"kind":"loop","start":s,"end":en,"body_open":bs}));
        visit::visit_expr_loop(self, e);
    }
    fn visit_macro(&mut self, m: &'ast syn::Macro) {
        let (s, _) = self.li.range(m.path.span());
        let (_, en) = self.li.range(m.delimiter.span().close());
        let (os, _) = self.li.range(m.delimiter.span().open());
        self.macros.push(json!({"name": squash(m.path.clone()), "start": s, "end": en, "open": os}));
        visit::visit_macro(self, m);
    }
    fn visit_expr_closure(&mut self, c: &'ast syn::ExprClosure) {
        let (s, en) = self.li.range(c.span());
        self.closures.push(json!({"start": s, "end": en}));
        visit::visit_expr_closure(self, c);
    }
}

impl<'a> Indexer<'a> {
    fn path(&self, name: &str) -> String {
        let mut p = self.stack.join("::");
        if !p.is_empty() {
            p.push_str("::");
        }
        p.push_str(name);
        p
    }
    fn attrs_end(&self, attrs: &[syn::Attribute], dflt: usize) -> usize {
        // byte offset just after the last outer attribute (so that "item without attrs" can be cut)
        let mut e = dflt;
        let mut any = false;
        for a in attrs {
            let (_, ae) = self.li.range(a.span());
            if !any || ae > e {
                e = ae;
                any = true;
            }
        }
        if any {
            e
        } else {
            dflt
        }
    }
    fn push_fn(
        &mut self,
        name: &str,
        whole: Span,
        attrs: &[syn::Attribute],
        sig: &syn::Signature,
        vis: Option<&syn::Visibility>,
        block: Option<&syn::Block>,
    ) {
        let (s, e) = self.li.range(whole);
        let (sig_s, sig_e) = self.li.range(sig.span());
        let vis_s = match vis {
            Some(v) => {
                let r = self.li.range(v.span());
                if matches!(v, syn::Visibility::Inherited) {
                    sig_s
                } else {
                    r.0
                }
            }
            None => sig_s,
        };
        let mut v = json!({
            "kind":"fn","path": self.path(name), "start": s, "end": e,
            "after_attrs": self.attrs_end(attrs, s),
            "decl_start": vis_s,
            "sig": [sig_s, sig_e],
        });
        if let Some(b) = block {
            let (bo, _) = self.li.range(b.brace_token.span.open());
            let (bcs, _) = self.li.range(b.brace_token.span.close());
            let mut scan = BodyScan { li: self.li, loops: vec![], macros: vec![], closures: vec![] };
            scan.visit_block(b);
            v["body_open"] = json!(bo);
            v["body_close"] = json!(bcs);
            v["loops"] = json!(scan.loops);
            v["macros"] = json!(scan.macros);
            v["closures"] = json!(scan.closures);
            let stmts: Vec<Value> = b
                .stmts
                .iter()
                .map(|st| {
                    let (a, z) = self.li.range(st.span());
                    json!([a, z])
                })
                .collect();
            v["stmts"] = json!(stmts);
        }
        // parameters
        let params: Vec<Value> = sig
            .inputs
            .iter()
            .map(|a| {
                let (a0, a1) = self.li.range(a.span());
                json!([a0, a1])
            })
            .collect();
        v["params"] = json!(params);
        if let syn::ReturnType::Type(_, ty) = &sig.output {
            let (r0, r1) = self.li.range(ty.span());
            v["ret"] = json!([r0, r1]);
        }
        let (n0, n1) = self.li.range(sig.ident.span());
        v["name_span"] = json!([n0, n1]);
        self.items.push(v);
    }
    fn push_simple(&mut self, kind: &str, name: &str, whole: Span, attrs: &[syn::Attribute]) {
        let (s, e) = self.li.range(whole);
        self.items.push(json!({"kind": kind, "path": self.path(name), "start": s, "end": e,
            "after_attrs": self.attrs_end(attrs, s)}));
    }
}

impl<'a, 'ast> Visit<'ast> for Indexer<'a> {
    fn visit_item_fn(&mut self, f: &'ast syn::ItemFn) {
        self.push_fn(&f.sig.ident.to_string(), f.span(), &f.attrs, &f.sig, Some(&f.vis), Some(&f.block));
        self.stack.push(format!("fn {}", f.sig.ident));
        visit::visit_block(self, &f.block);
        self.stack.pop();
    }
    fn visit_item_mod(&mut self, m: &'ast syn::ItemMod) {
        self.push_simple("mod", &m.ident.to_string(), m.span(), &m.attrs);
        self.stack.push(m.ident.to_string());
        visit::visit_item_mod(self, m);
        self.stack.pop();
    }
    fn visit_item_struct(&mut self, s: &'ast syn::ItemStruct) {
        self.push_simple("struct", &s.ident.to_string(), s.span(), &s.attrs);
    }
    fn visit_item_enum(&mut self, s: &'ast syn::ItemEnum) {
        self.push_simple("enum", &s.ident.to_string(), s.span(), &s.attrs);
    }
    fn visit_item_union(&mut self, s: &'ast syn::ItemUnion) {
        self.push_simple("union", &s.ident.to_string(), s.span(), &s.attrs);
    }
    fn visit_item_type(&mut self, s: &'ast syn::ItemType) {
        self.push_simple("type", &s.ident.to_string(), s.span(), &s.attrs);
    }
    fn visit_item_const(&mut self, s: &'ast syn::ItemConst) {
        self.push_simple("const", &s.ident.to_string(), s.span(), &s.attrs);
    }
    fn visit_item_static(&mut self, s: &'ast syn::ItemStatic) {
        self.push_simple("static", &s.ident.to_string(), s.span(), &s.attrs);
    }
    fn visit_item_trait(&mut self, t: &'ast syn::ItemTrait) {
        self.push_simple("trait", &t.ident.to_string(), t.span(), &t.attrs);
        self.stack.push(format!("trait {}", t.ident));
        for it in &t.items {
            if let syn::TraitItem::Fn(f) = it {
                self.push_fn(&f.sig.ident.to_string(), f.span(), &f.attrs, &f.sig, None, f.default.as_ref());
            }
        }
        self.stack.pop();
    }
    fn visit_item_impl(&mut self, im: &'ast syn::ItemImpl) {
        let self_ty = squash((*im.self_ty).clone());
        let name = match &im.trait_ {
            Some((_, p, _)) => format!("impl {} for {}", squash(p.clone()), self_ty),
            None => format!("impl {}", self_ty),
        };
        self.push_simple("impl", &name, im.span(), &im.attrs);
        self.stack.push(name);
        for it in &im.items {
            match it {
                syn::ImplItem::Fn(f) => {
                    self.push_fn(&f.sig.ident.to_string(), f.span(), &f.attrs, &f.sig, Some(&f.vis), Some(&f.block));
                    self.stack.push(format!("fn {}", f.sig.ident));
                    visit::visit_block(self, &f.block);
                    self.stack.pop();
                }
                syn::ImplItem::Const(c) => self.push_simple("const", &c.ident.to_string(), c.span(), &c.attrs),
                syn::ImplItem::Type(c) => self.push_simple("type", &c.ident.to_string(), c.span(), &c.attrs),
                _ => {}
            }
        }
        self.stack.pop();
    }
}

fn main() {
    let args: Vec<String> = std::env::args().collect();
    if args.len() != 3 || args[1] != "index" {
        eprintln!("usage: vx index FILE.rs");
        std::process::exit(2);
    }
    let src = match std::fs::read_to_string(&args[2]) {
        Ok(s) => s,
        Err(e) => {
            eprintln!("vx: cannot read {}: {e}", args[2]);
            std::process::exit(2);
        }
    };
    let file = match syn::parse_file(&src) {
        Ok(f) => f,
        Err(e) => {
            eprintln!("vx: parse error in {}: {e}", args[2]);
            std::process::exit(2);
        }
    };
    let li = LineIndex::new(&src);
    let mut ix = Indexer { li: &li, stack: vec![], items: vec![] };
    ix.visit_file(&file);
    println!("{}", serde_json::to_string(&json!({"file": args[2], "len": src.len(), "items": ix.items})).unwrap());
}
